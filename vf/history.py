"""History workloads: objects are *used*, then modified through their public setters (or re-used for a second
purpose), then used again.  What they return the second time must be what a freshly built object for the new
configuration returns (and what the independent references say).  These workloads exist because caches, memos and
fast paths keyed on part of the state go stale exactly in such histories, and one-shot cases never see it.

Every function takes a JSON-able case and returns {"bad": [...], "counts": {...}, "key", "nontrivial", "sample"}
(see vf.sandbox.run_extra)."""
import copy
import math
import os
import shutil
import tempfile

import numpy as np

from vf import gen, ref, si, engines, simhelp
from vf.common import use_repo, chash, SCRATCH

TOL = 1e-11


def _cmp(name, got, want, mag, bad, ctx, floor=0.0):
    for k, (g, w, m) in enumerate(zip(got, want, mag)):
        tol = TOL * (abs(m) + abs(w) + floor) + 1e-300
        if not (isinstance(g, float) and math.isfinite(g)) or abs(g - w) > tol:
            bad.append({"what": name, "entry": k, "got": g, "expected": w, **ctx})
            return False
    return True


# ---------------------------------------------------------------------------------------------------------------
# C01 / C19: reaction and species setters after the system has been used

def h_reaction_setters(case):
    use_repo()
    engines.install()
    import strengths as st
    from strengths import kinetics
    sd, idx = case["seed"], case["idx"]
    r = gen.rng_for(sd, "Hrx", idx)
    kind = r.choice(["grid", "graph"])
    one = r.random() < 0.35
    opts = {"space": kind, "explicit_chstt": 0.0, "explicit_state": 1.0,
            "net": {"chstt": 0.0, "nreactions": (1, 3), "nspecies": (1, 3), "max_order": 3, "no_growth": False},
            "grid": {"dims": (1, 1) if one else (1, 2), "max_cells": 4}, "graph": {"nodes": (1, 1) if one else (2, 3), "simple": True}}
    desc = gen.rand_system(r, opts)
    rd = gen.Rendering(r)
    system = gen.render_system(desc, rd)
    S, n = len(desc["species"]), gen.ncells(desc["space"])
    state = gen.state_of(desc)
    bad, counts = [], {}
    ctx = {"case": {"seed": sd, "idx": idx}}

    def observe(tag):
        """all three realisations of the rate law on the CURRENT system object vs the reference of the current description"""
        f, mag = ref.rate_law(desc, state, None)
        maxrate = ref.max_rate(desc, state)
        dt = 0.02 / maxrate
        usys = gen.mild_sys(r)
        ok = True
        dd = kinetics.compute_dstatedt(system, apply_chemostats=False, units_system=st.UnitsSystem(**si.sys_dict(usys)))
        sc_ = float(si.scale(si.sys_of(dd.units.sys), (0, -1, 1)))
        ok &= _cmp("%s: compute_dstatedt differs from the rate law of the current constants" % tag,
                   [float(x) * sc_ for x in dd.value], f, mag, bad, ctx)
        if n == 1:
            fdx = system.make_dxdtf(st.UnitsSystem(**si.sys_dict(usys)))
            qs, ts = float(si.QUANTITY[usys[2]]), float(si.TIME[usys[1]])
            got = [float(g) * qs / ts for g in fdx(0.0, [v / qs for v in state])]
            ok &= _cmp("%s: make_dxdtf differs from the rate law of the current constants" % tag, got, f, mag, bad, ctx)
        script = simhelp.make_script(system, r, dt_si=dt, t_sample_si=[0.0], policy="on_iteration", t_max_si=10 * dt, usys=gen.mild_sys(r))
        e = engines.get("euler")
        e.setup(script)
        e.iterate()
        out = e.get_output()
        e.finalize()
        t, d = simhelp.output_arrays(out)
        x1 = d[1].reshape(-1).tolist()
        h = float(t[1] - t[0])
        ok &= _cmp("%s: Euler step differs from the rate law of the current constants" % tag, x1, [a + h * b for a, b in zip(state, f)],
                   [h * m for m in mag], bad, ctx, floor=max(abs(v) for v in state) * 4)
        counts["observations_" + tag.split(" ")[0]] = counts.get("observations_" + tag.split(" ")[0], 0) + 1
        return ok
    observe("first-use")
    edits = []
    for _ in range(r.randint(1, 3)):
        j = r.randrange(len(desc["reactions"]))
        rx, obj = desc["reactions"][j], system.network.reactions[j]
        which = r.choice(["kf", "kr", "units+kf", "set_k", "D", "kf-str"])
        no, mo = sum(rx["sub"].values()), sum(rx["prod"].values())
        V = desc["h"] ** 3
        newk = lambda order: r.uniform(0.1, 3.0) * 20.0 ** (1 - order) * V ** (order - 1)
        if which == "kf":
            v = newk(no)
            obj.kf = gen.q_bare(v, si.sys_of(obj.units_system), gen.K_DIM(no))
            rx["kf"] = v
        elif which == "kr":
            v = newk(mo)
            obj.kr = gen.q_bare(v, si.sys_of(obj.units_system), gen.K_DIM(mo))
            rx["kr"] = v
        elif which == "set_k":
            vf_, vr_ = newk(no), newk(mo)
            obj.set_k(gen.q_bare(vf_, si.sys_of(obj.units_system), gen.K_DIM(no)), gen.q_bare(vr_, si.sys_of(obj.units_system), gen.K_DIM(mo)))
            rx["kf"], rx["kr"] = vf_, vr_
        elif which == "units+kf":
            # the reaction's units system is replaced; a bare number assigned afterwards is read in the NEW system
            ns = gen.mild_sys(r)
            obj.units_system = st.UnitsSystem(**si.sys_dict(ns)) if r.random() < 0.5 else si.sys_dict(ns)
            v = newk(no)
            obj.kf = gen.q_bare(v, ns, gen.K_DIM(no))
            rx["kf"] = v
        elif which == "kf-str":
            v = newk(no)
            own = gen.mild_sys(r)
            obj.kf = "%r %s" % (gen.q_bare(v, own, gen.K_DIM(no)), si.unit_string(own, gen.K_DIM(no)))
            rx["kf"] = v
        else:
            s_ = r.randrange(S)
            v = 10 ** r.uniform(-1.0, 0.7) * desc["h"] ** 2
            sp = system.network.species[s_]
            sp.D = gen.q_bare(v, si.sys_of(sp.units_system), gen.D_DIM)
            desc["species"][s_]["D"] = v
        edits.append(which)
    ok = observe("after-setters")
    return {"bad": bad[:4], "counts": counts, "key": chash([desc, edits]), "nontrivial": True,
            "sample": {"seed": sd, "idx": idx, "edits": edits, "cells": n, "reactions": [gen.eq_string(x["sub"], x["prod"]) for x in desc["reactions"]]}}


# ---------------------------------------------------------------------------------------------------------------
# C02: same script and engine objects, reactions replaced in place between two simulations

def h_network_swap(case):
    use_repo()
    engines.install()
    import strengths as st
    from vf.checks import c02
    sd, idx = case["seed"], case["idx"]
    r = gen.rng_for(sd, "Hswap", idx)
    for attempt in range(20):
        desc = c02.gen_case(sd, idx * 20 + attempt)
        if len(desc["reactions"]) >= 1 and len(desc["species"]) >= 2:
            break
    else:
        return {"bad": [], "counts": {"swap_cases_without_reactions": 1}}
    desc["chemostats"] = None
    for s_ in desc["species"]:
        s_["chstt"] = False
    bad, counts = [], {}
    ctx = {"case": {"seed": sd, "idx": idx}}
    labels = [s_["label"] for s_ in desc["species"]]
    rot = dict(zip(labels, labels[1:] + labels[:1]))
    desc2 = copy.deepcopy(desc)
    for x in desc2["reactions"]:
        x["sub"] = {rot[l]: c for l, c in x["sub"].items()}
        x["prod"] = {rot[l]: c for l, c in x["prod"].items()}
    state = gen.state_of(desc)
    _, mag = ref.rate_law(desc, state, None)
    maxrate = max(ref.max_rate(desc, state), ref.max_rate(desc2, state))      # stable for the network of either run
    dt = 0.02 / maxrate
    S, n = len(labels), gen.ncells(desc["space"])
    for kind_ in engines.KINDS:
        rd = gen.Rendering(gen.rng_for(sd, "Hswaprd", idx, kind_), molecule_state=True)
        system = gen.render_system(desc, rd)
        nsteps = 60 if kind_ != "gillespie" else 400
        t_max_si = nsteps * dt
        if kind_ == "gillespie":      # one event per iteration: bound the run by events (macroscopic counts), not by time
            # total propensity of all channels (self-loop edges fire too), for the network of either run
            a0 = max(sum(ref.propensity(c_, state) for c_ in ref.channels(d_, [0] * len(state))) for d_ in (desc, desc2))
            t_max_si = min(t_max_si, 2000.0 / (a0 + 1e-300))
        script = simhelp.make_script(system, r, dt_si=dt, t_sample_si=[0.0], policy="on_iteration", t_max_si=t_max_si,
                                     usys=(gen.mild_sys(r)[0], gen.mild_sys(r)[1], "molecule"), isp="none", seed=r.randrange(2 ** 31))
        eng = engines.get(kind_)
        out1 = st.simulate_script(script, eng)
        # replace the reactions of the SAME script object in place (same count, other stoichiometry), simulate again on the SAME engine
        rd2 = gen.Rendering(gen.rng_for(sd, "Hswaprd2", idx, kind_))
        newnet = gen.render_network(desc2, rd2, None)
        script.system.network.reactions = list(newnet.reactions)
        out2 = st.simulate_script(script, eng)
        for tag, out, dsc in (("first run", out1, desc), ("second run after replacing the reactions in place", out2, desc2)):
            t, d = simhelp.output_arrays(out)
            if not np.all(np.isfinite(d)):
                counts["swap_nonfinite_skipped"] = counts.get("swap_nonfinite_skipped", 0) + 1
                continue
            tot = d.sum(axis=2)
            absmax = np.abs(d).sum(axis=2).max(axis=0)
            for c in ref.left_null_space(dsc, set()):
                cv = np.array(c, dtype=float)
                L = tot @ cv
                counts["swap_law_checks"] = counts.get("swap_law_checks", 0) + 1
                if kind_ != "euler":
                    okk = bool(np.all(L == L[0]))
                else:
                    okk = bool(np.all(np.abs(L - L[0]) <= 1e-12 * (np.arange(len(L)) + 10) * (float(np.abs(cv) @ absmax) + 1e-300)))
                if not okk:
                    bad.append({"what": "%s: %s: a conservation law of the network the script holds is violated" % (kind_, tag),
                                "law": dict(zip(labels, c)), "L0": float(L[0]), "Lend": float(L[-1]),
                                "reactions": [gen.eq_string(x["sub"], x["prod"]) for x in dsc["reactions"]], **ctx})
                    break
    return {"bad": bad[:4], "counts": counts, "key": chash([desc, "swap"]), "nontrivial": True,
            "sample": {"seed": sd, "idx": idx, "reactions_before": [gen.eq_string(x["sub"], x["prod"]) for x in desc["reactions"]],
                       "reactions_after": [gen.eq_string(x["sub"], x["prod"]) for x in desc2["reactions"]]}}


def h_fractional_stochastic(case):
    """C02: 'none' pass-through of a non-integer state into the stochastic engines: totals of conserved quantities still constant"""
    use_repo()
    engines.install()
    import strengths as st
    from vf.checks import c02
    sd, idx = case["seed"], case["idx"]
    r = gen.rng_for(sd, "Hfrac", idx)
    desc = c02.gen_case(sd, 700000 + idx)
    desc["state"] = [x + r.choice([0.0, 0.25, 0.5, 0.5]) if x > 0 else r.choice([0.0, 0.5]) for x in gen.state_of(desc)]
    bad, counts = [], {}
    S, n = len(desc["species"]), gen.ncells(desc["space"])
    chst = gen.chemostats_of(desc)
    excluded = {s for s in range(S) if any(chst[s * n:(s + 1) * n])}
    laws = ref.left_null_space(desc, excluded)
    labels = [s_["label"] for s_ in desc["species"]]
    _, mag = ref.rate_law(desc, gen.state_of(desc), None)
    dt = 0.02 / max([m / (abs(s_) + 1.0) for m, s_ in zip(mag, gen.state_of(desc))] + [1e-3])
    for kind_ in ("gillespie", "tauleap"):
        system = gen.render_system(desc, gen.Rendering(gen.rng_for(sd, "Hfracrd", idx, kind_), molecule_state=True))
        script = simhelp.make_script(system, r, dt_si=dt, t_sample_si=[0.0], policy="on_iteration", t_max_si=1e9, isp="none",
                                     usys=(gen.mild_sys(r)[0], gen.mild_sys(r)[1], "molecule"), seed=r.randrange(2 ** 31))
        t, d, complete, out = simhelp.run_script(kind_, script, 300)
        if d.shape[0] < 2:
            continue
        tot = d.sum(axis=2)
        absmax = np.abs(d).sum(axis=2).max(axis=0)
        for c in laws:
            cv = np.array(c, dtype=float)
            L = tot @ cv
            counts["fractional_state_law_checks"] = counts.get("fractional_state_law_checks", 0) + 1
            if not np.all(np.abs(L - L[0]) <= 1e-9 * (float(np.abs(cv) @ absmax) + 1.0)):
                j = int(np.argmax(np.abs(L - L[0])))
                bad.append({"what": "%s: conservation law violated from a non-integer initial state ('none' mode)" % kind_,
                            "law": dict(zip(labels, c)), "L0": float(L[0]), "Lj": float(L[j]), "sample": j, "case": {"seed": sd, "idx": idx}})
                break
    return {"bad": bad[:3], "counts": counts, "key": chash([desc, "frac"]), "nontrivial": bool(laws),
            "sample": {"seed": sd, "idx": idx, "state_head": desc["state"][:6]}}


# ---------------------------------------------------------------------------------------------------------------
# C03: one chemostat array handed to several systems

def h_chemostat_alias(case):
    use_repo()
    import strengths as st
    from strengths import kinetics
    sd, idx = case["seed"], case["idx"]
    r = gen.rng_for(sd, "Halias", idx)
    desc = gen.rand_system(r, {"explicit_chstt": 1.0, "explicit_state": 1.0,
                               "net": {"nspecies": (1, 3), "nreactions": (0, 2), "max_order": 2, "no_growth": False},
                               "grid": {"dims": (1, 2), "max_cells": 4}, "graph": {"nodes": (1, 4)}})
    rd = gen.Rendering(r)
    base = gen.render_system(desc, rd)
    S, n = len(desc["species"]), gen.ncells(desc["space"])
    template = np.array(desc["chemostats"], dtype=int)
    keep = template.copy()
    A = st.RDSystem(base.network, base.space, state=base.state, chemostats=template, units_system=base.units_system)
    B = st.RDSystem(base.network, base.space, state=base.state, chemostats=template, units_system=base.units_system)
    C = base.copy()
    C.chemostats = template
    D_ = st.RDSystem(base.network, base.space, state=base.state, chemostats=A.chemostats, units_system=base.units_system)
    bad, counts = [], {}
    k = r.randrange(S * n)
    s_i, c_i = k // n, k % n
    A.set_chemostat(s_i, c_i, 1 - int(keep[k]))
    counts["alias_checks"] = 1
    for name, obj in (("a second system built from the same array", B), ("a system whose map was assigned from the same array", C),
                      ("a system built from another system's map", D_)):
        if np.array(obj.chemostats, dtype=int).tobytes() != keep.tobytes():
            bad.append({"what": "set_chemostat on one system changed the chemostat map of %s" % name, "entry": k,
                        "case": {"seed": sd, "idx": idx}})
    if template.tobytes() != keep.tobytes():
        bad.append({"what": "set_chemostat on a system changed the caller's array", "entry": k, "case": {"seed": sd, "idx": idx}})
    # B's derivative at that entry follows B's own flag
    try:
        d = kinetics.compute_dspeciesdt(B, s_i, c_i, None, True)
        f, mag = ref.rate_law(desc, gen.state_of(desc), list(keep))
        g = d.value * float(si.scale(si.sys_of(d.units.sys), (0, -1, 1)))
        if abs(g - f[k]) > 1e-11 * (mag[k] + abs(f[k])) + 1e-300:
            bad.append({"what": "derivative of an entry follows another system's flag", "entry": k, "flag": int(keep[k]), "got": g,
                        "expected": f[k], "case": {"seed": sd, "idx": idx}})
    except Exception as e:
        bad.append({"what": "kinetics raised", "error": str(e), "case": {"seed": sd, "idx": idx}})
    return {"bad": bad[:3], "counts": counts, "key": chash([desc, "alias"]), "nontrivial": S * n >= 2, "sample": None}


# ---------------------------------------------------------------------------------------------------------------
# C13: spaces edited after use; equal numbers in different units

def h_space_edits(case):
    use_repo()
    import strengths as st
    sd, idx = case["seed"], case["idx"]
    r = gen.rng_for(sd, "Hspace", idx)
    kind = r.choice(["grid", "graph", "graph"])
    desc = gen.rand_system(r, {"space": kind, "explicit_chstt": 0.0, "explicit_state": 0.0,
                               "net": {"nspecies": (1, 3), "nreactions": (0, 1), "nenv": (2, 3), "chstt": 0.5},
                               "grid": {"dims": (1, 3), "max_cells": 8}, "graph": {"nodes": (2, 5)}})
    rd = gen.Rendering(r)
    system = gen.render_system(desc, rd)
    space = system.space
    S, n = len(desc["species"]), gen.ncells(desc["space"])
    bad, counts = [], {}
    ctx = {"case": {"seed": sd, "idx": idx}}

    def check(tag, sysobj):
        want = gen.default_state(desc)
        got = (np.array(sysobj.state.value, dtype=float) * float(si.QUANTITY[si.sys_of(sysobj.state.units.sys)[2]])).tolist()
        counts["space_edit_state_checks"] = counts.get("space_edit_state_checks", 0) + 1
        for k, (g, w) in enumerate(zip(got, want)):
            if True:
                if abs(g - w) > 1e-11 * abs(w):
                    bad.append({"what": "%s: default state is not density x (current) volume in the (current) environment" % tag,
                                "entry": k, "species": k // n, "cell": k % n, "got": g, "expected": w, **ctx})
                    return
        wc = gen.default_chemostats(desc)
        if [int(x) for x in sysobj.chemostats] != wc:
            bad.append({"what": "%s: default chemostat map does not follow the (current) environments" % tag, **ctx})
    check("as built", system)
    space.get_cell_vol_array()
    edits = []
    for _ in range(r.randint(1, 3)):
        if kind == "graph":
            k = r.randrange(n)
            node = space.nodes[k]
            if r.random() < 0.6:
                v = desc["space"]["nodes"][k]["vol"] * r.uniform(1.5, 4.0)
                node.volume = gen.q_bare(v, si.sys_of(node.units_system), gen.VOL_DIM) if r.random() < 0.5 else \
                    "%r %s" % (gen.q_bare(v, ("µm", "s", "molecule"), gen.VOL_DIM), "µm3")
                desc["space"]["nodes"][k]["vol"] = v
                edits.append("node.volume")
            else:
                e_ = r.randrange(len(desc["envs"]))
                node.environment = e_
                desc["space"]["nodes"][k]["env"] = e_
                edits.append("node.environment")
        else:
            if r.random() < 0.5:
                v = desc["space"]["cell_vol"] * r.uniform(1.5, 4.0)
                space.cell_vol = gen.q_bare(v, si.sys_of(space.units_system), gen.VOL_DIM)
                desc["space"]["cell_vol"] = v
                edits.append("grid.cell_vol")
            else:
                env = [r.randrange(len(desc["envs"])) for _ in range(n)]
                space.cell_env = env
                desc["space"]["cell_env"] = env
                edits.append("grid.cell_env")
    system.set_default_state()
    system.set_default_chemostats()
    check("after editing the space and regenerating the defaults", system)
    check("a second system built on the edited space", st.RDSystem(system.network, space, units_system=system.units_system))
    # equal numbers, different units
    num = float(r.randint(2, 9))
    S1, S2 = gen.mild_sys(r), gen.mild_sys(r)
    while S2 == S1:
        S2 = gen.mild_sys(r)
    own = gen.mild_sys(r)
    sp = [st.Species("A", density=num, units_system=st.UnitsSystem(**si.sys_dict(S1))),
          st.Species("B", density=num, units_system=st.UnitsSystem(**si.sys_dict(S2))),
          st.Species("C", density="%r %s" % (num, si.unit_string(own, gen.DENS_DIM)))]
    r.shuffle(sp)
    net = st.RDNetwork(sp, [])
    g = st.RDGridSpace(w=2, h=1, d=1, cell_vol=1.0)
    sy = st.RDSystem(net, g)
    vol = 1e-18
    exp = {"A": num * float(si.scale(S1, gen.DENS_DIM)) * vol, "B": num * float(si.scale(S2, gen.DENS_DIM)) * vol,
           "C": num * float(si.scale(own, gen.DENS_DIM)) * vol}
    got = np.array(sy.state.value, dtype=float) * float(si.QUANTITY[si.sys_of(sy.state.units.sys)[2]])
    counts["equal_number_checks"] = 1
    for j, s_ in enumerate(sp):
        for c_ in range(2):
            if abs(got[j * 2 + c_] - exp[s_.label]) > 1e-11 * exp[s_.label]:
                bad.append({"what": "species whose densities are the same NUMBER in different units got the same amounts",
                            "species": s_.label, "got": float(got[j * 2 + c_]), "expected": exp[s_.label], "number": num,
                            "units": [S1, S2, own], **ctx})
                break
    return {"bad": bad[:4], "counts": counts, "key": chash([desc, edits]), "nontrivial": True,
            "sample": {"seed": sd, "idx": idx, "space": kind, "edits": edits}}


# ---------------------------------------------------------------------------------------------------------------
# C16: the same grid object coarse-grained again after its environment map was replaced

def h_cg_reuse(case):
    use_repo()
    import strengths as st
    from strengths import coarsegrain as cg
    sd, idx = case["seed"], case["idx"]
    r = gen.rng_for(sd, "Hcg", idx)
    w, h, d = r.choice([(4, 1, 1), (3, 2, 1), (2, 2, 2), (5, 2, 1), (3, 3, 1)])
    n = w * h * d
    nenv = 2
    bad, counts = [], {}
    net = st.RDNetwork([st.Species("A", density={"e0": 2.0, "e1": 5.0}, chstt={"e1": True})], [], environments=["e0", "e1"])

    def rand_env_and_map():
        env = [r.randrange(nenv) for _ in range(n)]
        groups, m = {}, [0] * n
        for i in range(n):
            key = (env[i], r.randrange(2))
            if key not in groups:
                groups[key] = len(groups)
            m[i] = groups[key]
        return env, m
    env1, m1 = rand_env_and_map()
    grid = st.RDGridSpace(w=w, h=h, d=d, cell_env=env1, cell_vol=1.0)
    system = st.RDSystem(net, grid)

    def check(tag, env, m):
        try:
            cs = cg.coarsegrain_system(system, list(m))
        except Exception as e:
            bad.append({"what": "%s: a valid map was rejected" % tag, "error": "%s: %s" % (type(e).__name__, e), "env": env, "map": m,
                        "case": {"seed": sd, "idx": idx}})
            return
        counts["cg_reuse_checks"] = counts.get("cg_reuse_checks", 0) + 1
        for gi in range(max(m) + 1):
            members = [i for i in range(n) if m[i] == gi]
            want_env = env[members[0]]
            node = cs.space.nodes[gi]
            if node.environment != want_env:
                bad.append({"what": "%s: group environment is not the environment of its member cells" % tag, "group": gi,
                            "got": int(node.environment), "expected": want_env, "env": env, "map": m, "case": {"seed": sd, "idx": idx}})
                return
            want_amount = sum({0: 2.0, 1: 5.0}[env[i]] for i in members)
            got_amount = float(cs.state.value[gi])
            if abs(got_amount - want_amount) > 1e-9 * want_amount:
                bad.append({"what": "%s: group amount is not the sum over its member cells" % tag, "group": gi, "got": got_amount,
                            "expected": want_amount, "case": {"seed": sd, "idx": idx}})
                return
    check("first use", env1, m1)
    env2, m2 = rand_env_and_map()
    system.space.cell_env = env2
    system.set_default_state()
    system.set_default_chemostats()
    check("same grid object after its environment map was replaced", env2, m2)
    return {"bad": bad[:3], "counts": counts, "key": chash([w, h, d, env1, m1, env2, m2]), "nontrivial": True,
            "sample": {"grid": [w, h, d], "env_before": env1, "env_after": env2, "map_after": m2}}


# ---------------------------------------------------------------------------------------------------------------
# C17: species list of a network replaced after label look-ups, then trajectories built

def h_species_reorder(case):
    use_repo()
    import strengths as st
    sd, idx = case["seed"], case["idx"]
    r = gen.rng_for(sd, "Hreorder", idx)
    labels = r.sample(["A", "B", "C", "D4", "E"], r.randint(2, 4))
    net = st.RDNetwork([st.Species(l) for l in labels], [])
    for l in labels:
        net.get_species_index(l)
        net.get_species(l)
    new_labels = list(labels)
    r.shuffle(new_labels)
    if r.random() < 0.5:
        new_labels = ["Z"] + new_labels
    net.species = [st.Species(l) for l in new_labels]
    S = len(new_labels)
    C = r.randint(1, 3)
    N = r.randint(1, 3)
    space = st.RDGridSpace(w=C, h=1, d=1)
    system = st.RDSystem(net, space, state=[0.0] * (S * C))
    data = np.array([1e6 * n_ + 1e3 * s_ + c_ for n_ in range(N) for s_ in range(S) for c_ in range(C)], dtype=float)
    traj = st.RDTrajectory(st.UnitArray(data, "molecule"), st.UnitArray([float(i) for i in range(N)], "s"), system)
    bad, counts = [], {}
    for s_, l in enumerate(new_labels):
        for c_ in range(C):
            for n_ in range(N):
                want = 1e6 * n_ + 1e3 * s_ + c_
                counts["reorder_label_checks"] = counts.get("reorder_label_checks", 0) + 1
                got = [float(traj.get_trajectory_point(l, n_, c_).value), float(traj.get_state(l, n_).value[c_]),
                       float(traj.get_trajectory(l, c_).value[n_]), float(traj.get_trajectory_point(s_, n_, c_).value)]
                if any(g != want for g in got):
                    bad.append({"what": "after the network's species list was replaced, a species given by LABEL reads another species' block",
                                "label": l, "index": s_, "cell": c_, "sample": n_, "got": got, "expected": want,
                                "old_order": labels, "new_order": new_labels, "case": {"seed": sd, "idx": idx}})
                    return {"bad": bad, "counts": counts, "key": chash([labels, new_labels]), "nontrivial": True, "sample": None}
    return {"bad": bad, "counts": counts, "key": chash([labels, new_labels, C, N]), "nontrivial": True,
            "sample": {"old_order": labels, "new_order": new_labels}}


# ---------------------------------------------------------------------------------------------------------------
# C18: a unit printed, modified in place, printed again

def h_units_inplace(case):
    use_repo()
    import strengths.units as U
    sd, idx = case["seed"], case["idx"]
    r = gen.rng_for(sd, "Hunits", idx)
    bad, counts = [], {}
    for _ in range(case.get("n", 200)):
        s3 = list(r.choice(si.ALL_SYSTEMS))
        d3 = [r.randint(-9, 9) for _ in range(3)]
        u = U.Units(U.UnitsSystem(space=s3[0], time=s3[1], quantity=s3[2]), U.UnitsDimensions(space=d3[0], time=d3[1], quantity=d3[2]))
        q = U.UnitValue(r.uniform(-5, 5), u)
        obj = r.choice(["units", "value"])
        target = u if obj == "units" else q.units
        str(u), str(q), repr(q)
        edits = []
        for _e in range(r.randint(1, 2)):
            kk = r.randrange(3)
            name = si.KINDS[kk]
            if r.random() < 0.6:
                e2 = r.randint(-9, 9)
                if r.random() < 0.5:
                    setattr(target.dim, name, e2)
                else:
                    target.dim[name] = e2
                d3[kk] = e2
                edits.append("dim." + name)
            else:
                sym = r.choice(list(si.BASE[name]))
                if r.random() < 0.5:
                    setattr(target.sys, name, sym)
                else:
                    target.sys[name] = sym
                s3[kk] = sym
                edits.append("sys." + name)
        text = str(u) if obj == "units" else str(q)
        counts["inplace_print_parse_checks"] = counts.get("inplace_print_parse_checks", 0) + 1
        try:
            back = U.parse_units(text) if obj == "units" else U.parse_unitvalue(text).units
            got_d = si.dim_of(back.dim)
            got_s = si.sys_of(back.sys)
            okk = tuple(got_d) == tuple(d3) and all(d3[k] == 0 or got_s[k] == s3[k] for k in range(3))
        except Exception as e:
            okk, got_d, got_s = False, str(e), None
        if not okk:
            bad.append({"what": "a unit modified in place after it was printed prints its OLD text (print-parse does not give the unit back)",
                        "text": text, "expected_dim": d3, "expected_sys": s3, "parsed_dim": got_d, "parsed_sys": got_s, "edits": edits,
                        "case": {"seed": sd, "idx": idx}})
            break
    return {"bad": bad[:2], "counts": counts, "key": None}


# ---------------------------------------------------------------------------------------------------------------
# C12: a trajectory whose system is not its script's system (un-coarse-grained output), saved and loaded

def h_traj_system_vs_script(case):
    use_repo()
    import strengths as st
    sd, idx = case["seed"], case["idx"]
    r = gen.rng_for(sd, "Htraj", idx)
    bad, counts = [], {}
    net = st.RDNetwork([st.Species("A", density=float(r.randint(1, 9))), st.Species("B")], [st.Reaction("A -> B", kf=0.5)])
    wX, wY = r.randint(2, 5), r.randint(1, 4)
    while wY == wX:
        wY = r.randint(1, 4)
    X = st.RDSystem(net, st.RDGridSpace(w=wX, h=1, d=1, cell_vol=r.uniform(0.5, 2.0)))
    Y = st.RDSystem(net, st.RDGridSpace(w=wY, h=1, d=1))
    script = st.RDScript(Y, t_sample=[0, 1], rng_seed=r.randrange(2 ** 31))
    N = 2
    data = np.array([float(r.randint(0, 50)) for _ in range(N * 2 * wX)])
    traj = st.RDTrajectory(st.UnitArray(data, "molecule"), st.UnitArray([0.0, 1.0], "s"), X, script=script,
                           cgmap=[r.randrange(wY) for _ in range(wX)] if r.random() < 0.5 else None)
    os.makedirs(SCRATCH, exist_ok=True)
    tmp = tempfile.mkdtemp(prefix="htraj-", dir=SCRATCH)
    try:
        for sep in (True, False):
            p = os.path.join(tmp, "t%d" % int(sep))
            st.save_rdtrajectory(traj, p, separate_data=sep)
            back = st.load_rdtrajectory(p + ".json")
            counts["traj_system_vs_script_checks"] = counts.get("traj_system_vs_script_checks", 0) + 1
            if back.system.space.size() != wX or back.ncells() != wX:
                bad.append({"what": "a trajectory whose system differs from its script's system comes back with another system",
                            "cells_saved": wX, "cells_loaded": int(back.system.space.size()), "script_cells": wY, "separate_data": sep,
                            "case": {"seed": sd, "idx": idx}})
            elif back.script.system.space.size() != wY:
                bad.append({"what": "the script stored in a trajectory comes back with another system", "case": {"seed": sd, "idx": idx}})
            elif np.array(back.data.value).tobytes() != data.tobytes():
                bad.append({"what": "trajectory data changed in a save/load cycle", "case": {"seed": sd, "idx": idx}})
            elif abs(float(back.system.space.cell_vol.convert("µm3").value) - float(X.space.cell_vol.convert("µm3").value)) > 1e-12:
                bad.append({"what": "trajectory system geometry changed in a save/load cycle", "case": {"seed": sd, "idx": idx}})
    finally:
        shutil.rmtree(tmp, ignore_errors=True)
    return {"bad": bad[:2], "counts": counts, "key": chash([wX, wY, data.tolist()]), "nontrivial": True, "sample": {"cells": wX, "script_cells": wY}}


# ---------------------------------------------------------------------------------------------------------------
# C17: what the accessors return are values, not windows onto the trajectory; merged sums with a coarse-graining map

def h_traj_outputs(case):
    use_repo()
    import strengths as st
    sd, idx = case["seed"], case["idx"]
    r = gen.rng_for(sd, "Htout", idx)
    S, C, N = r.randint(1, 3), r.randint(1, 4), r.randint(1, 4)
    labels = ["A", "B", "C"][:S]
    net = st.RDNetwork([st.Species(l) for l in labels], [])
    system = st.RDSystem(net, st.RDGridSpace(w=C, h=1, d=1), state=[0.0] * (S * C))
    unit = r.choice(["molecule", "mol", "nmol"])
    data = np.array([r.uniform(0.0, 9.0) * (1.0 if unit == "molecule" else 1e-3) for _ in range(N * S * C)])
    cgmap = [r.randrange(max(1, C - 1)) for _ in range(C)] if r.random() < 0.6 else None
    traj = st.RDTrajectory(st.UnitArray(data, unit), st.UnitArray([float(i) for i in range(N)], "s"), system, cgmap=cgmap)
    bad, counts = [], {}
    ctx = {"case": {"seed": sd, "idx": idx}, "shape": [N, S, C], "cgmap": cgmap, "unit": unit}
    D3 = data.reshape(N, S, C)
    for s_ in range(S):
        m = traj.get_trajectory(labels[s_], merge=True)
        counts["merged_checks"] = counts.get("merged_checks", 0) + 1
        want = D3[:, s_, :].sum(axis=1)
        if not np.all(np.abs(np.array(m.value) - want) <= 1e-12 * np.abs(D3[:, s_, :]).sum(axis=1) + 0.0):
            bad.append({"what": "merged trajectory is not the sum over cells", "species": labels[s_], "got": np.array(m.value).tolist(),
                        "expected": want.tolist(), **ctx})
            break
    before = np.array(traj.data.value).tobytes()
    outs = [traj.get_state(labels[0], 0), traj.get_state(None, N - 1), traj.get_trajectory(labels[-1], C - 1),
            traj.get_trajectory(labels[0], merge=True)]
    for o in outs:
        o.value[...] = -55.5
    pt = traj.get_trajectory_point(labels[0], 0, 0)
    pt.value = -55.5
    counts["output_independence_checks"] = len(outs) + 1
    if np.array(traj.data.value).tobytes() != before:
        bad.append({"what": "editing what an accessor returned changed the trajectory's data", **ctx})
    # a trajectory that carries its script (as the engines build it: the system it is given IS the script's system): the stored script is
    # then re-used for a follow-up model - its system gets another network / state - while the trajectory is still being read
    if cgmap is None:
        scr = st.RDScript(system, t_sample=[float(i) for i in range(N)], time_step=0.5)
        tj = st.RDTrajectory(st.UnitArray(data.copy(), unit), st.UnitArray([float(i) for i in range(N)], "s"), system=scr.system, script=scr)
        snap = [np.array(tj.get_state(None, k_).value).tobytes() for k_ in range(N)] + [np.array(tj.system.state.value).tobytes()]
        dims0 = (tj.nsamples(), tj.nspecies(), tj.ncells())
        other = st.RDNetwork([st.Species("Q"), st.Species("R"), st.Species("S"), st.Species("T")], [])
        tj.script.system.state = [7.0] * (S * C)
        tj.script.system.network = other if r.random() < 0.5 else tj.script.system.network
        counts["stored_script_edit_checks"] = 1
        try:
            now = [np.array(tj.get_state(None, k_).value).tobytes() for k_ in range(N)] + [np.array(tj.system.state.value).tobytes()]
            dims1 = (tj.nsamples(), tj.nspecies(), tj.ncells())
            if now != snap or dims1 != dims0:
                bad.append({"what": "editing the system of the script stored in a trajectory changed what the trajectory (or its own system) returns",
                            "dims_before": list(dims0), "dims_after": list(dims1), **ctx})
        except Exception as e:
            bad.append({"what": "after editing the system of the script stored in a trajectory the accessors raise", "error": "%s: %s" % (type(e).__name__, e), **ctx})
    # a trajectory whose own system is not its script's system (what un-coarse-graining produces: data on the full space, script of
    # the coarse run) written to a file and read back: the loaded trajectory is still laid out on ITS system
    if C >= 2 and idx % 3 == 0:
        small = st.RDSystem(net, st.RDGridSpace(w=1, h=1, d=1), state=[0.0] * S)
        scr2 = st.RDScript(small, t_sample=[float(i) for i in range(N)], time_step=0.5)
        tk = st.RDTrajectory(st.UnitArray(data.copy(), unit), st.UnitArray([float(i) for i in range(N)], "s"), system=system, script=scr2)
        os.makedirs(SCRATCH, exist_ok=True)
        root = tempfile.mkdtemp(prefix="htraj-", dir=SCRATCH)
        try:
            for sep in (False, True):
                pth = os.path.join(root, "tr_%d.json" % int(sep))
                st.save_rdtrajectory(tk, pth, separate_data=sep)
                lk = st.load_rdtrajectory(pth)
                counts["loaded_trajectory_layout_checks"] = counts.get("loaded_trajectory_layout_checks", 0) + 1
                try:
                    ok = (lk.nsamples(), lk.nspecies(), lk.ncells()) == (N, S, C) and \
                        np.allclose(np.array(lk.get_state(None, N - 1).convert(unit).value), data.reshape(N, S * C)[N - 1], rtol=1e-12, atol=0) and \
                        abs(float(lk.get_trajectory_point(labels[-1], 0, C - 1).convert(unit).value) - D3[0, S - 1, C - 1]) <= 1e-12 * abs(D3[0, S - 1, C - 1])
                except Exception as e:
                    ok = False
                if not ok:
                    bad.append({"what": "a saved and re-loaded trajectory whose system differs from its script's system is no longer laid out on its own system",
                                "separate_data": sep, "shape_expected": [N, S, C], **ctx})
                    break
        finally:
            shutil.rmtree(root, ignore_errors=True)
    return {"bad": bad[:2], "counts": counts, "key": chash([N, S, C, cgmap, unit, idx]), "nontrivial": S * C * N >= 2, "sample": None}


# ---------------------------------------------------------------------------------------------------------------
# C16: un-coarse-graining twice, and the coarse trajectory afterwards

def h_ucg_twice(case):
    use_repo()
    import strengths as st
    from strengths import coarsegrain as cg
    sd, idx = case["seed"], case["idx"]
    r = gen.rng_for(sd, "Hucg", idx)
    w, h = r.choice([(4, 1), (3, 2), (5, 1), (2, 2)])
    n = w * h
    net = st.RDNetwork([st.Species("A"), st.Species("B")], [])
    fine = st.RDSystem(net, st.RDGridSpace(w=w, h=h, d=1), state=[float(r.randint(0, 20)) for _ in range(2 * n)])
    m = [i // 2 for i in range(n)]
    if r.random() < 0.4:
        m[-1] = -1
        if max(m) != (n - 2) // 2 and (n - 1) // 2 not in m[:-1]:
            m[-1] = (n - 1) // 2
    coarse = cg.coarsegrain_system(fine, list(m))
    G = coarse.space.size()
    N = r.randint(1, 3)
    cdata = np.array([float(r.randint(0, 40)) for _ in range(N * 2 * G)])
    ct = st.RDTrajectory(st.UnitArray(cdata.copy(), "molecule"), st.UnitArray([float(i) for i in range(N)], "s"), coarse)
    before = np.array(ct.data.value).tobytes()
    u1 = cg.uncoarsegrain_trajectory(ct, fine, list(m))
    u2 = cg.uncoarsegrain_trajectory(ct, fine, list(m))
    bad, counts = [], {"uncoarsegrain_twice_checks": 1}
    ctx = {"case": {"seed": sd, "idx": idx}, "map": m}
    if np.array(ct.data.value).tobytes() != before:
        bad.append({"what": "un-coarse-graining changed the coarse-grained trajectory it was given", **ctx})
    if np.array(u1.data.value).tobytes() != np.array(u2.data.value).tobytes():
        bad.append({"what": "un-coarse-graining the same trajectory twice gives two different results", **ctx})
    # group totals preserved (per sample, per species)
    F = np.array(u1.data.value).reshape(N, 2, n)
    Cc = cdata.reshape(N, 2, G)
    for g in range(G):
        mem = [i for i in range(n) if m[i] == g]
        if not np.allclose(F[:, :, mem].sum(axis=2), Cc[:, :, g], rtol=1e-12, atol=0):
            bad.append({"what": "un-coarse-graining does not preserve group totals", "group": g, **ctx})
            break
    return {"bad": bad[:2], "counts": counts, "key": chash([w, h, m, cdata.tolist()]), "nontrivial": True, "sample": None}


# ---------------------------------------------------------------------------------------------------------------
# C12: several trajectories saved side by side under awkward (dotted, prefix-sharing) names

def h_traj_names(case):
    use_repo()
    import strengths as st
    sd, idx = case["seed"], case["idx"]
    r = gen.rng_for(sd, "Hnames", idx)
    net = st.RDNetwork([st.Species("A")], [])
    system = st.RDSystem(net, st.RDGridSpace(w=2, h=1, d=1))
    script = st.RDScript(system, t_sample=[0, 1], rng_seed=1)
    names = r.sample(["scan_k0.25", "scan_k0.5", "run.v1", "run.v2", "run", "a.b.c", "a.b.d", "traj_data", "traj", "x.json.bak"], 4)
    os.makedirs(SCRATCH, exist_ok=True)
    tmp = tempfile.mkdtemp(prefix="hnames-", dir=SCRATCH)
    bad, counts = [], {}
    try:
        datas = {}
        for nm in names:
            datas[nm] = np.array([r.uniform(0, 100) for _ in range(4)])
            tr = st.RDTrajectory(st.UnitArray(datas[nm], "molecule"), st.UnitArray([0.0, 1.0], "s"), system, script=script)
            st.save_rdtrajectory(tr, os.path.join(tmp, nm), separate_data=r.random() < 0.8)
        for nm in names:
            p = os.path.join(tmp, nm) + ("" if nm.endswith(".json") else ".json")
            back = st.load_rdtrajectory(p)
            counts["sibling_file_checks"] = counts.get("sibling_file_checks", 0) + 1
            if np.array(back.data.value).tobytes() != datas[nm].tobytes():
                bad.append({"what": "a trajectory saved next to others comes back with another trajectory's data", "name": nm, "names": names,
                            "files": sorted(os.listdir(tmp)), "case": {"seed": sd, "idx": idx}})
                break
    except Exception as e:
        bad.append({"what": "save/load of trajectories under dotted names raised", "error": "%s: %s" % (type(e).__name__, e), "names": names,
                    "case": {"seed": sd, "idx": idx}})
    finally:
        shutil.rmtree(tmp, ignore_errors=True)
    return {"bad": bad[:2], "counts": counts, "key": chash(names), "nontrivial": True, "sample": {"names": names}}


# ---------------------------------------------------------------------------------------------------------------
# C19 / C04 / C13: objects built with default arguments are independent of one another

def h_default_isolation(case):
    """Two objects built with the default units system (no units given) do not share it: editing the units system of one
    in place (`obj.units_system.space = "nm"`, `obj.units_system["quantity"] = "mol"`) changes neither an object built
    before nor one built afterwards - their bare numbers keep meaning (µm, s, molecule).  Same for the other mutable
    defaults (environment lists, empty override dictionaries)."""
    use_repo()
    import strengths as st
    sd, idx = case["seed"], case["idx"]
    r = gen.rng_for(sd, "Hdefault", idx)
    bad, counts = [], {}
    which = case.get("which") or r.choice(["reaction", "species", "network", "grid", "graphnode", "system", "script"])
    eq = r.choice(["A + B -> C", "2 A -> B", "A -> ", " -> A", "A -> B"])
    kf, kr, D, dens, vol = r.uniform(0.1, 5), r.uniform(0.1, 5), r.uniform(0.1, 5), r.uniform(1, 50), r.uniform(0.5, 3)

    def build():
        if which == "reaction":
            return st.Reaction(eq, kf=kf, kr=kr)
        if which == "species":
            return st.Species("A", D=D, density=dens)
        if which == "network":
            return st.RDNetwork([st.Species("A", D=D, density=dens), st.Species("B"), st.Species("C")], [st.Reaction(eq, kf=kf, kr=kr)])
        if which == "grid":
            return st.RDGridSpace(w=2, h=1, d=1, cell_vol=vol)
        if which == "graphnode":
            return st.RDGraphSpaceNode(volume=vol)
        net = st.RDNetwork([st.Species("A", D=D, density=dens), st.Species("B"), st.Species("C")], [st.Reaction(eq, kf=kf, kr=kr)])
        system = st.RDSystem(net, st.RDGridSpace(w=2, h=1, d=1, cell_vol=vol))
        if which == "system":
            return system
        return st.RDScript(system, t_sample=[0, 1.5], time_step=0.25)

    def meaning(o):
        """physical content of the bare numbers the object was given, in SI-with-molecules"""
        out = {}

        def q(name, uv):
            u = uv.units
            out[name] = float(uv.value) * float(si.scale(si.sys_of(u.sys), si.dim_of(u.dim)))
        if which == "reaction":
            q("kf", o.kf), q("kr", o.kr)
        elif which == "species":
            q("D", o.D), q("density", o.density)
        elif which == "network":
            q("D", o.species[0].D), q("density", o.species[0].density), q("kf", o.reactions[0].kf), q("kr", o.reactions[0].kr)
        elif which == "grid":
            q("cell_vol", o.cell_vol)
        elif which == "graphnode":
            q("volume", o.volume)
        elif which == "system":
            out["state0"] = float(o.state.value[0]) * float(si.QUANTITY[si.sys_of(o.state.units.sys)[2]])
            q("D", o.network.species[0].D)
        else:
            q("time_step", o.time_step), q("t_max", o.t_max)
            out["t_sample_last"] = float(o.t_sample.value[-1]) * float(si.TIME[si.sys_of(o.t_sample.units.sys)[1]])
        out["units_system"] = si.sys_of(o.units_system)
        return out
    first = build()
    want = meaning(first)
    victim = build()
    edits = r.sample([("space", "nm"), ("time", "ms"), ("quantity", "mol")], r.randint(1, 3))
    how = r.choice(["attribute", "item"])
    try:
        for comp, sym in edits:
            if how == "attribute":
                setattr(victim.units_system, comp, sym)
            else:
                victim.units_system[comp] = sym
    except Exception as e:
        return {"bad": [], "counts": {"default_isolation_edit_refused": 1}, "key": None}
    later = build()
    counts["default_isolation_checks"] = 1
    counts["default_isolation:" + which] = 1
    for name, obj in (("an object built BEFORE", first), ("an object built AFTERWARDS", later)):
        got = meaning(obj)
        for k_, w_ in want.items():
            g_ = got[k_]
            same = (g_ == w_) if not isinstance(w_, float) else abs(g_ - w_) <= 1e-12 * abs(w_)
            if not same:
                bad.append({"what": "editing one object's units system in place changed %s with default units" % name, "class": which,
                            "field": k_, "got": g_, "expected": w_, "edits": edits, "how": how, "case": {"seed": sd, "idx": idx}})
                break
    # the environment list default of networks
    if which == "network":
        n1 = build()
        try:
            n1.environments.append("extra")
        except Exception:
            pass
        n2 = build()
        if list(n2.environments) != [""]:
            bad.append({"what": "a network built with the default environment list does not have the default list any more", "got": list(n2.environments),
                        "case": {"seed": sd, "idx": idx}})
    return {"bad": bad[:3], "counts": counts, "key": chash(["default-isolation", which, eq, edits, how]), "nontrivial": True,
            "sample": {"seed": sd, "idx": idx, "class": which, "edits": edits, "how": how}}


# ---------------------------------------------------------------------------------------------------------------
# C13 / C12 / C14 / C04: a key left out of a dictionary means the documented default of the constructor

def h_dict_defaults(case):
    """For every reader: the object read from a dictionary that leaves an optional key out equals the object the constructor
    builds without that argument IN THE SAME UNITS SYSTEM (volume 1, surface 1, distance 1, D 0, density 0, k 0, time_step
    1e-3, sampling_interval 1 - all in the object's own units -, environment 0, 'reflecting', 'on_t_sample', 'auto',
    t_max = last requested time), whatever units the parent level has."""
    use_repo()
    import strengths as st
    sd, idx = case["seed"], case["idx"]
    r = gen.rng_for(sd, "Hdictdefaults", idx)
    own = gen.rand_sys(r)
    parent = gen.rand_sys(r)
    how = r.choice(["declared", "inherited"])
    eff = own if how == "declared" else parent
    U = lambda s3: st.UnitsSystem(**si.sys_dict(s3))
    ukey = r.choice(["units", "u", "units_system", "units system"])
    bad, counts = [], {}

    def with_units(d):
        if how == "declared":
            d[ukey] = si.sys_dict(own)
        return d

    def si_of(uv):
        return float(uv.value) * float(si.scale(si.sys_of(uv.units.sys), si.dim_of(uv.units.dim)))

    def same(name, a, b):
        counts["dict_default_checks"] = counts.get("dict_default_checks", 0) + 1
        ok = (a == b) if not isinstance(a, float) else (abs(a - b) <= 1e-12 * abs(b) if b else a == 0)
        if not ok:
            bad.append({"what": "a key left out of a dictionary does not mean the constructor's documented default", "object": kind, "field": name,
                        "from_dictionary": a, "constructor_default": b, "units": list(eff), "units_declared": how, "case": {"seed": sd, "idx": idx}})
    kind = case.get("which") or r.choice(["node", "edge", "grid", "species", "reaction", "script"])
    counts["dict_defaults:" + kind] = 1
    try:
        if kind == "node":
            from strengths.rdgraphspace import rdgraphspacenode_from_dict
            o = rdgraphspacenode_from_dict(with_units({}), parent_units_system=U(parent))
            c = st.RDGraphSpaceNode(units_system=U(eff))
            same("volume", si_of(o.volume), si_of(c.volume)), same("environment", int(o.environment), int(c.environment))
        elif kind == "edge":
            from strengths.rdgraphspace import rdgraphspaceedge_from_dict
            o = rdgraphspaceedge_from_dict(with_units({"nodes": [0, 1]}), parent_units_system=U(parent))
            c = st.RDGraphSpaceEdge(0, 1, units_system=U(eff))
            same("surface", si_of(o.surface), si_of(c.surface)), same("distance", si_of(o.distance), si_of(c.distance))
        elif kind == "grid":
            from strengths.rdgridspace import rdgridspace_from_dict
            o = rdgridspace_from_dict(with_units({"w": 2}), parent_units_system=U(parent))
            c = st.RDGridSpace(w=2, units_system=U(eff))
            same("cell_vol", si_of(o.cell_vol), si_of(c.cell_vol)), same("h", o.h, c.h), same("d", o.d, c.d)
            same("boundary_conditions", dict(o.boundary_conditions) if hasattr(o, "boundary_conditions") else None,
                 dict(c.boundary_conditions) if hasattr(c, "boundary_conditions") else None)
            same("cell_env", [int(x) for x in o.get_cell_env_array()], [int(x) for x in c.get_cell_env_array()])
        elif kind == "species":
            from strengths.rdnetwork import species_from_dict
            o = species_from_dict(with_units({"label": "A"}), parent_units_system=U(parent))
            c = st.Species("A", units_system=U(eff))
            same("D", si_of(o.D), si_of(c.D)), same("density", si_of(o.density), si_of(c.density)), same("chstt", bool(o.chstt), bool(c.chstt))
        elif kind == "reaction":
            from strengths.rdnetwork import reaction_from_dict
            eq = r.choice(["A + B -> C", "A -> B", "2 A -> "])
            o = reaction_from_dict(with_units({"stoichiometry": eq}), parent_units_system=U(parent))
            c = st.Reaction(eq, units_system=U(eff))
            same("kf", si_of(o.kf), si_of(c.kf)), same("kr", si_of(o.kr), si_of(c.kr))
        else:
            from strengths.rdscript import rdscript_from_dict
            sysd = {"network": {"species": [{"label": "A", "density": 1}]}}
            ts = [0, 0.5, 2.5]
            how_s = r.choice(["declared", "default"])
            d = {"system": sysd, "t_sample": ts}
            if how_s == "declared":
                d[ukey] = si.sys_dict(own)
            o = rdscript_from_dict(d)
            net = st.RDNetwork([st.Species("A", density=1)], [])
            c = st.RDScript(st.RDSystem(net, st.RDGridSpace()), t_sample=ts, units_system=U(own) if how_s == "declared" else st.UnitsSystem())
            same("time_step", si_of(o.time_step), si_of(c.time_step)), same("sampling_interval", si_of(o.sampling_interval), si_of(c.sampling_interval))
            same("t_max", si_of(o.t_max), si_of(c.t_max)), same("sampling_policy", o.sampling_policy, c.sampling_policy)
            same("init_state_processing", o.init_state_processing, c.init_state_processing)
    except Exception as e:
        bad.append({"what": "a dictionary without its optional keys was refused (or the constructor without its optional arguments)", "object": kind,
                    "error": "%s: %s" % (type(e).__name__, e), "case": {"seed": sd, "idx": idx}})
    return {"bad": bad[:3], "counts": counts, "key": chash(["dict-defaults", kind, own, parent, how, ukey]), "nontrivial": True,
            "sample": {"seed": sd, "idx": idx, "object": kind, "units": list(eff), "declared_or_inherited": how}}
