"""pytest plugin: runs the repository's own tests with the icontract monitors of vf.contracts switched on.
usage: VERIF_CONTRACT_OUT=<file> python -m pytest -p vf.pytest_plugin <repo>/tests"""
import json
import os

from vf import contracts


def pytest_configure(config):
    contracts.install()


def pytest_sessionfinish(session, exitstatus):
    log, counts = contracts.drain()
    out = os.environ.get("VERIF_CONTRACT_OUT")
    if out:
        with open(out, "w") as f:
            json.dump({"violations": [[n, w] for n, w in log[:50]], "counts": counts}, f, default=str)
